package main

import (
	"fmt"
	"go/constant"
	"go/token"
	"go/types"
	"os"
	"sort"
	"strings"

	"golang.org/x/tools/go/ssa"
)

func init() {
	register(&PropDef{
		ID: "C04", Title: "frame encoding round-trips, respects the size limit and keeps the wire format",
		Run:       runC04,
		Technique: "static analysis: byte-layout table extraction from encoder and decoder compared with each other and a frozen Cloak-v2 table, argument-identity checks of the cipher wiring, conditional constant propagation of MakeObfuscator per method, affine bounds with cancellation for the length byte and the size limit",
		Decided: "(c) the encoder's and the decoder's header tables are identical to the frozen v2 layout (stream id BE32 @0, seq BE64 @4, closing @12, extra length @13, header 14 bytes, payload at 14) — this is what catches a change applied symmetrically to both sides; " +
			"(a) the structural facts that imply the round trip: both sides derive the AEAD nonce from header[:NonceSize] of the plaintext header, seal/open the same region with no AAD, key the header cipher with the session key and the last 8 bytes as nonce, in mirrored order (seal before header encryption, header decryption before parsing and opening); the method→(cipher, key slice) table equals the v2 table; " +
			"(b) padding+tag fits the one-byte length field for every padding draw and the encoded length is at most payload+269, the per-frame maximum is limit−269, and every encoder call site passes a payload no longer than that maximum; the decoder releases exactly in[14 : len(in) − header[13]] on every path; (d) the two buffer-placement modes agree with their call sites; the empty payload is refused first.",
		NotDecided:  "the equality decode(encode(f)) = f as a value; correctness of AES-GCM/ChaCha20-Poly1305/Salsa20 (library); quality of randomness.",
		Assumptions: []string{"AEAD.Overhead()=16 and NonceSize()=12 for the three constructors of MakeObfuscator", "common.RandInt(n) ∈ [0,n-1]", "io.Reader.Read returns n <= len(p)"},
	})
}

func runC04(c *Ctx) {
	c04R1(c, "C04.R1")
	c04R2(c, "C04.R2")
	c04R3(c, "C04.R3")
	c04R4(c, "C04.R4")
	c04R5(c, "C04.R5")
	c04R6(c, "C04.R6")
	c04R7(c, "C04.R7")
}

type layoutEntry struct {
	lo, hi int64
	enc    string // BE32, BE64, byte
	what   string
	at     ssa.Instruction
}

func (e layoutEntry) String() string { return fmt.Sprintf("[%d:%d] %s %s", e.lo, e.hi, e.enc, e.what) }

var frameSpec = []layoutEntry{
	{0, 4, "BE32", "StreamID", nil},
	{4, 12, "BE64", "Seq", nil},
	{12, 13, "byte", "Closing", nil},
	{13, 14, "byte", "extraLen", nil},
}

// headerSlice: the value `X[:k]` of the buffer parameter with constant k (the frame header).
func headerSlice(f *ssa.Function, buf ssa.Value) (*ssa.Slice, int64) {
	var hs *ssa.Slice
	var hk int64
	allInstrs(f, func(i ssa.Instruction) {
		if sl, ok := i.(*ssa.Slice); ok && sl.X == buf && sl.Low == nil && sl.High != nil {
			if k, isK := intConst(sl.High); isK && hs == nil {
				hs, hk = sl, k
			}
		}
	})
	return hs, hk
}

func constSliceOf(v ssa.Value, base ssa.Value) (lo, hi int64, ok bool) {
	sl, isSl := v.(*ssa.Slice)
	if !isSl || sl.X != base {
		return 0, 0, false
	}
	if sl.Low != nil {
		k, isK := intConst(sl.Low)
		if !isK {
			return 0, 0, false
		}
		lo = k
	}
	if sl.High == nil {
		return 0, 0, false
	}
	k, isK := intConst(sl.High)
	if !isK {
		return 0, 0, false
	}
	return lo, k, true
}

func frameFieldName(v ssa.Value, frame ssa.Value) string {
	fv, base := loadedField(v)
	if fv != nil && base == frame {
		return fv.Name()
	}
	return ""
}

// encoderLayout extracts the writes into the header.
func encoderLayout(f *ssa.Function, header *ssa.Slice, frame ssa.Value) []layoutEntry {
	var out []layoutEntry
	var bstores []byteStore
	allInstrs(f, func(i ssa.Instruction) {
		switch x := i.(type) {
		case *ssa.Call:
			n := calleeName(&x.Call)
			w := int64(0)
			switch {
			case strings.Contains(n, "bigEndian).PutUint32"):
				w = 4
			case strings.Contains(n, "bigEndian).PutUint64"):
				w = 8
			case strings.Contains(n, "bigEndian).PutUint16"):
				w = 2
			case strings.Contains(n, "littleEndian).PutUint"):
				out = append(out, layoutEntry{-1, -1, "LE", "little-endian write", i})
				return
			default:
				return
			}
			args := x.Call.Args
			lo, hi, ok := constSliceOf(args[len(args)-2], header)
			if !ok {
				return
			}
			what := frameFieldName(args[len(args)-1], frame)
			if hi-lo != w {
				what += fmt.Sprintf("(slice %d bytes for a %d-byte field)", hi-lo, w)
			}
			out = append(out, layoutEntry{lo, hi, fmt.Sprintf("BE%d", w*8), what, i})
		case *ssa.Store:
			ia, ok := x.Addr.(*ssa.IndexAddr)
			if !ok || ia.X != ssa.Value(header) {
				return
			}
			k, isK := intConst(ia.Index)
			if !isK {
				// for i := 0; i < n; i++ { header[K+i] = byte(src >> (8*(n-1-i))) }
				if lo, n, src, okL := beLoopStore(x, ia); okL {
					out = append(out, layoutEntry{lo, lo + n, fmt.Sprintf("BE%d", n*8), frameFieldName(src, frame), i})
				} else if lo, n, src, okL := beDescLoopStore(x, ia); okL {
					out = append(out, layoutEntry{lo, lo + n, fmt.Sprintf("BE%d", n*8), frameFieldName(src, frame), i})
				}
				return
			}
			bstores = append(bstores, byteStore{k, x.Val, i})
		}
	})
	// manual big-endian writes (byte(x>>24), byte(x>>16), …) are one field
	fields, rest := groupBigEndian(bstores, func(src ssa.Value) string { return frameFieldName(src, frame) })
	out = append(out, fields...)
	for _, s := range rest {
		what := frameFieldName(s.val, frame)
		if what == "" {
			what = "extraLen"
		}
		out = append(out, layoutEntry{s.off, s.off + 1, "byte", what, s.at})
	}
	sort.Slice(out, func(i, j int) bool { return out[i].lo < out[j].lo })
	return out
}

// decoderLayout extracts the reads of the header and where they end up.
func decoderLayout(f *ssa.Function, header *ssa.Slice, frame ssa.Value) []layoutEntry {
	// stores into the frame: value → field
	dest := map[ssa.Value]string{}
	allInstrs(f, func(i ssa.Instruction) {
		if st, ok := i.(*ssa.Store); ok {
			if fv, base := fieldVar(st.Addr); fv != nil && base == frame {
				dest[stripConv(st.Val)] = fv.Name()
			}
		}
	})
	var out []layoutEntry
	// manual big-endian reads: an OR of shifted header bytes is one field; its loads are not single-byte fields
	consumed := map[ssa.Value]bool{}
	allInstrs(f, func(i ssa.Instruction) {
		bo, ok := i.(*ssa.BinOp)
		if !ok || (bo.Op != token.OR && bo.Op != token.ADD) {
			return
		}
		// only maximal expressions: skip when the only user is another OR/ADD of the same kind
		if refs := bo.Referrers(); refs != nil && len(*refs) == 1 {
			if up, isB := (*refs)[0].(*ssa.BinOp); isB && (up.Op == token.OR || up.Op == token.ADD) {
				return
			}
			if cv, isC := (*refs)[0].(*ssa.Convert); isC {
				if r2 := cv.Referrers(); r2 != nil && len(*r2) == 1 {
					if up, isB := (*r2)[0].(*ssa.BinOp); isB && (up.Op == token.OR || up.Op == token.ADD) {
						return
					}
				}
			}
		}
		lo, n, loads, okR := beRead(bo, header)
		if !okR {
			return
		}
		for _, l := range loads {
			consumed[l] = true
		}
		what := dest[ssa.Value(bo)]
		if what == "" {
			// the value may pass through a widening conversion before it is stored
			for v, nm := range dest {
				if stripIntWiden(v) == ssa.Value(bo) {
					what = nm
				}
			}
		}
		out = append(out, layoutEntry{lo, lo + n, fmt.Sprintf("BE%d", n*8), what, i})
	})
	// fold loops: v = 0; for _, b := range header[lo:hi] { v = v<<8 | T(b) }
	for v, nm := range dest {
		ph, ok := stripIntWiden(v).(*ssa.Phi)
		if !ok {
			continue
		}
		if lo, n, okF := beFold(ph, header); okF {
			out = append(out, layoutEntry{lo, lo + n, fmt.Sprintf("BE%d", n*8), nm, ph})
		}
	}
	allInstrs(f, func(i ssa.Instruction) {
		switch x := i.(type) {
		case *ssa.Call:
			n := calleeName(&x.Call)
			w := int64(0)
			switch {
			case strings.Contains(n, "bigEndian).Uint32"):
				w = 4
			case strings.Contains(n, "bigEndian).Uint64"):
				w = 8
			case strings.Contains(n, "bigEndian).Uint16"):
				w = 2
			default:
				return
			}
			lo, hi, ok := constSliceOf(x.Call.Args[len(x.Call.Args)-1], header)
			if !ok {
				return
			}
			what := dest[x]
			if hi-lo != w {
				what += fmt.Sprintf("(slice %d bytes for a %d-byte field)", hi-lo, w)
			}
			out = append(out, layoutEntry{lo, hi, fmt.Sprintf("BE%d", w*8), what, i})
		case *ssa.UnOp:
			if x.Op != token.MUL {
				return
			}
			ia, ok := x.X.(*ssa.IndexAddr)
			if !ok || ia.X != ssa.Value(header) {
				return
			}
			k, isK := intConst(ia.Index)
			if !isK || consumed[x] {
				return
			}
			what := dest[x]
			if what == "" {
				what = "extraLen"
			}
			out = append(out, layoutEntry{k, k + 1, "byte", what, i})
		}
	})
	sort.Slice(out, func(i, j int) bool { return out[i].lo < out[j].lo })
	return out
}

func layoutString(es []layoutEntry) string {
	var s []string
	for _, e := range es {
		s = append(s, e.String())
	}
	return strings.Join(s, ", ")
}

func c04R1(c *Ctx, rule string) {
	c.Rule(rule, "header tables: encoder writes and decoder reads of the 14-byte header equal each other and the frozen v2 table; payload starts at 14 on both sides", 4)
	a := getMuxAnchors(c, rule)
	if a == nil {
		return
	}
	p := c.P
	hl, _ := p.Const("internal/multiplex", "frameHeaderLength")
	c.Check(hl == 14, rule, "frameHeaderLength == 14", "-", "14", fmt.Sprintf("header length constant is %d; the v2 frame header is 14 bytes", hl))
	enc, dec := a.obfuscate, a.deobfuscate
	eh, ek := headerSlice(enc, enc.Params[2])
	dh, dk := headerSlice(dec, dec.Params[2])
	if eh == nil || dh == nil {
		c.Undecided(rule, "header slices of encoder/decoder", "-", "cannot find buf[:k]/in[:k] with constant k")
		return
	}
	c.Check(ek == 14 && dk == 14, rule, "header slice length on both sides", c.at(eh), "buf[:14] / in[:14]", fmt.Sprintf("encoder header is %d bytes, decoder header is %d bytes", ek, dk))
	el := encoderLayout(enc, eh, enc.Params[1])
	dl := decoderLayout(dec, dh, dec.Params[1])
	spec := layoutString(frameSpec)
	c.Check(layoutString(el) == spec, rule, "encoder header table = v2 table", c.atFn(enc), layoutString(el), "encoder writes {"+layoutString(el)+"} but the Cloak v2 layout is {"+spec+"}: peers built from the layout cannot decode (even if this build's decoder was changed the same way)")
	c.Check(layoutString(dl) == spec, rule, "decoder header table = v2 table", c.atFn(dec), layoutString(dl), "decoder reads {"+layoutString(dl)+"} but the Cloak v2 layout is {"+spec+"}")
	// payload region starts right after the header on both sides
	encStart, decStart := int64(-1), int64(-1)
	allInstrs(enc, func(i ssa.Instruction) {
		if sl, ok := i.(*ssa.Slice); ok && sl.X == ssa.Value(enc.Params[2]) && sl.Low != nil {
			if k, isK := intConst(sl.Low); isK && encStart < 0 {
				encStart = k
			}
		}
	})
	allInstrs(dec, func(i ssa.Instruction) {
		if sl, ok := i.(*ssa.Slice); ok && sl.X == ssa.Value(dec.Params[2]) && sl.Low != nil && sl.High == nil {
			if k, isK := intConst(sl.Low); isK && decStart < 0 {
				decStart = k
			}
		}
	})
	c.Check(encStart == 14 && decStart == 14, rule, "payload region starts at offset 14 on both sides", c.atFn(enc), "buf[14:…] / in[14:]", fmt.Sprintf("encoder payload starts at %d, decoder at %d", encStart, decStart))
}

// sliceDesc describes slice expressions structurally for the wiring checks.
func isSliceLowConstOf(v ssa.Value, base ssa.Value, lo int64) bool {
	sl, ok := v.(*ssa.Slice)
	if !ok || sl.X != base {
		return false
	}
	if sl.Low == nil {
		return lo == 0
	}
	k, isK := intConst(sl.Low)
	return isK && k == lo
}

func findCall(f *ssa.Function, name string) *ssa.Call {
	var out *ssa.Call
	allInstrs(f, func(i ssa.Instruction) {
		if call, ok := i.(*ssa.Call); ok && out == nil && (calleeName(&call.Call) == name || strings.HasSuffix(calleeName(&call.Call), name)) {
			out = call
		}
	})
	return out
}

func isNonceSizeOf(v ssa.Value) bool {
	call, ok := stripConv(v).(*ssa.Call)
	return ok && calleeName(&call.Call) == "(crypto/cipher.AEAD).NonceSize"
}

func c04R2(c *Ctx, rule string) {
	c.Rule(rule, "cipher wiring: Seal/Open use header[:NonceSize] as nonce, no AAD, the same payload region; Salsa20 keyed with &sessionKey and the last 8 bytes as nonce; Seal precedes header encryption, header decryption precedes parsing and Open; method→cipher/key table = v2", 8)
	a := getMuxAnchors(c, rule)
	if a == nil {
		return
	}
	p := c.P
	enc, dec := a.obfuscate, a.deobfuscate
	eh, _ := headerSlice(enc, enc.Params[2])
	dh, _ := headerSlice(dec, dec.Params[2])
	if eh == nil || dh == nil {
		c.Undecided(rule, "header slices", "-", "not found")
		return
	}
	keyF := p.Field("internal/multiplex", "Obfuscator", "sessionKey")
	seal := findCall(enc, "(crypto/cipher.AEAD).Seal")
	open := findCall(dec, "(crypto/cipher.AEAD).Open")
	xe := findCall(enc, "salsa20.XORKeyStream")
	xd := findCall(dec, "salsa20.XORKeyStream")
	if seal == nil || open == nil || xe == nil || xd == nil {
		c.Bad(rule, "cipher calls present", c.atFn(enc), fmt.Sprintf("Seal=%v Open=%v XOR(enc)=%v XOR(dec)=%v", seal != nil, open != nil, xe != nil, xd != nil))
		return
	}
	// Seal(dst, nonce, plaintext, aad): invoke → Args = [dst, nonce, plaintext, aad]
	nonceOK := func(nonce ssa.Value, header *ssa.Slice) bool {
		sl, ok := nonce.(*ssa.Slice)
		if !ok || sl.High == nil || !isNonceSizeOf(sl.High) {
			return false
		}
		if sl.Low != nil {
			if k, isK := intConst(sl.Low); !isK || k != 0 {
				return false
			}
		}
		if sl.X == ssa.Value(header) {
			return true
		}
		// any other spelling of "the message from its first byte": base[:k], base[0:k][:m] …
		off, okO := constSliceOffset(sl.X, header.X)
		return okO && off == 0
	}
	sa, oa := seal.Call.Args, open.Call.Args
	c.Check(nonceOK(sa[1], eh) && isNilConst(sa[3]), rule, "Seal nonce = header[:NonceSize], AAD nil", c.at(seal), "Seal(payload[:0], header[:NonceSize()], payload, nil)",
		"encoder seals with nonce "+Expr(sa[1])+" and AAD "+Expr(sa[3])+": not the v2 derivation (nonce = first NonceSize bytes of the plaintext header = StreamID‖Seq)")
	c.Check(nonceOK(oa[1], dh) && isNilConst(oa[3]), rule, "Open nonce = header[:NonceSize], AAD nil", c.at(open), "Open(pld[:0], header[:NonceSize()], pld, nil)",
		"decoder opens with nonce "+Expr(oa[1])+" and AAD "+Expr(oa[3]))
	// region: encoder plaintext = payload = buf[14:14+payloadLen+padLen], dst = payload[:0]; decoder ciphertext = in[14:], dst = that[:0]
	encRegion := isSliceLowConstOf(sa[2], enc.Params[2], 14) && isSliceLowConstOf(sa[0], sa[2], 0)
	decRegion := isSliceLowConstOf(oa[2], dec.Params[2], 14) && isSliceLowConstOf(oa[0], oa[2], 0)
	if sl, ok := oa[2].(*ssa.Slice); ok && sl.High != nil {
		decRegion = false
	}
	c.Check(encRegion && decRegion, rule, "sealed region = everything after the header, in place", c.at(seal), "buf[14:14+len+pad] sealed in place; in[14:] opened in place", fmt.Sprintf("encoder region ok=%v, decoder region ok=%v", encRegion, decRegion))
	// salsa20: XORKeyStream(out, in, nonce, key)
	keyOK := func(v ssa.Value) bool { fv, _ := fieldVar(v); return fv == keyF }
	// nonce = the last 8 bytes of the message, whatever nesting of slice expressions spells it:
	// encoder buf[L−8 : L] with L the encoded length it returns; decoder in[len(in)−8 :]
	encNonce := func() bool {
		lo, hi, open, ok := normSlice(xe.Call.Args[2], enc.Params[2])
		if !ok || open {
			return false
		}
		d := hi.add(lo, -1)
		if !d.isConst() || d.C != 8 {
			return false
		}
		for _, r := range returnsOf(enc) {
			if errIsNilAt(resultValue(r, 1), r) != "nonnil" {
				if l, okL := exactAff(resultValue(r, 0)); okL && l.String() == hi.String() {
					return true
				}
			}
		}
		return false
	}()
	decNonce := func() bool {
		lo, _, open, ok := normSlice(xd.Call.Args[2], dec.Params[2])
		if !ok || !open || lo.C != -8 || len(lo.Terms) != 1 {
			return false
		}
		for s, k := range lo.Terms {
			lc, isC := s.(*ssa.Call)
			if !isC || k != 1 || calleeName(&lc.Call) != "builtin.len" || lc.Call.Args[0] != ssa.Value(dec.Params[2]) {
				return false
			}
		}
		return true
	}()
	c.Check(xe.Call.Args[0] == ssa.Value(eh) && xe.Call.Args[1] == ssa.Value(eh) && keyOK(xe.Call.Args[3]) && encNonce, rule, "encoder header cipher: Salsa20(header, nonce = last 8 bytes, key = sessionKey)", c.at(xe), "XORKeyStream(header, header, buf[usefulLen-8:usefulLen], &o.sessionKey)",
		"header encryption is wired to "+Expr(xe))
	c.Check(xd.Call.Args[0] == ssa.Value(dh) && xd.Call.Args[1] == ssa.Value(dh) && keyOK(xd.Call.Args[3]) && decNonce, rule, "decoder header cipher: Salsa20(header, nonce = last 8 bytes, key = sessionKey)", c.at(xd), "XORKeyStream(header, header, in[len(in)-8:], &o.sessionKey)",
		"header decryption is wired to "+Expr(xd))
	// order: encoder — no path from XOR to Seal, Seal can reach XOR; decoder — XOR dominates header reads and Open
	encOrder := forwardSearch(xe, nil, func(i ssa.Instruction) bool { return i == ssa.Instruction(seal) }) == nil &&
		forwardSearch(seal, nil, func(i ssa.Instruction) bool { return i == ssa.Instruction(xe) }) != nil
	c.Check(encOrder, rule, "encoder: Seal before header encryption", c.at(xe), "the AEAD nonce is the plaintext header", "the header is encrypted before it is used as AEAD nonce: the peer derives a different nonce")
	decOrder := instrDominates(xd, open)
	for _, e := range decoderLayout(dec, dh, dec.Params[1]) {
		if !instrDominates(xd, e.at) {
			decOrder = false
		}
	}
	c.Check(decOrder, rule, "decoder: header decryption before parsing and Open", c.at(xd), "XORKeyStream dominates every header read and Open", "header fields or the nonce are taken from the still-encrypted header")
	// MakeObfuscator method table
	mo := c.need(rule, "internal/multiplex", "MakeObfuscator")
	if mo == nil {
		return
	}
	type row struct {
		method int64
		want   string
	}
	rows := []row{{0, "none"}, {1, "aes.NewCipher(key[0:32])+NewGCM"}, {2, "chacha20poly1305.New(key[0:32])"}, {3, "aes.NewCipher(key[0:16])+NewGCM"}}
	for _, r := range rows {
		s := &SCCP{F: mo, AssumeValue: map[ssa.Value]constant.Value{mo.Params[0]: constant.MakeInt64(r.method)}}
		s.Run()
		var got []string
		allInstrs(mo, func(i ssa.Instruction) {
			call, ok := i.(*ssa.Call)
			if !ok || !s.execBlock[i.Block()] {
				return
			}
			n := calleeName(&call.Call)
			switch {
			case n == "crypto/aes.NewCipher":
				got = append(got, "aes.NewCipher("+keySliceDesc(call.Call.Args[0])+")")
			case n == "crypto/cipher.NewGCM":
				got = append(got, "NewGCM")
			case strings.HasSuffix(n, "chacha20poly1305.New"):
				got = append(got, "chacha20poly1305.New("+keySliceDesc(call.Call.Args[0])+")")
			case strings.HasSuffix(n, "chacha20poly1305.NewX"):
				got = append(got, "chacha20poly1305.NewX("+keySliceDesc(call.Call.Args[0])+")")
			}
		})
		g := strings.Join(got, "+")
		if g == "" {
			g = "none"
		}
		// the method must also be accepted (a nil-error return executable)
		accepted := false
		for _, ret := range s.ExecReturns() {
			if l := s.get(resultValue(ret, 1)); (l.kind == 1 && l.isNil) || errIsNilAt(resultValue(ret, 1), ret) != "nonnil" {
				accepted = true
			}
		}
		c.Check(g == r.want && accepted, rule, fmt.Sprintf("method %d → %s", r.method, r.want), c.atFn(mo), g, fmt.Sprintf("encryption method %d builds {%s} (accepted=%v) but the v2 table says {%s}: both ends of this build agree with each other and disagree with deployed peers", r.method, g, accepted, r.want))
	}
	// unknown method rejected
	s := &SCCP{F: mo, AssumeValue: map[ssa.Value]constant.Value{mo.Params[0]: constant.MakeInt64(7)}}
	s.Run()
	rej := true
	for _, ret := range s.ExecReturns() {
		if errIsNilAt(resultValue(ret, 1), ret) != "nonnil" {
			rej = false
		}
	}
	c.Check(rej, rule, "unknown method rejected", c.atFn(mo), "every executable return carries an error", "an unknown encryption method value is accepted")
}

func keySliceDesc(v ssa.Value) string {
	sl, ok := v.(*ssa.Slice)
	if !ok {
		return Expr(v)
	}
	lo, hi := int64(0), int64(32)
	if sl.Low != nil {
		lo, _ = intConst(sl.Low)
	}
	if sl.High != nil {
		hi, _ = intConst(sl.High)
	}
	return fmt.Sprintf("key[%d:%d]", lo, hi)
}

func c04R3(c *Ctx, rule string) {
	c.Rule(rule, "extra length fits its byte: the value stored at header[13] is padLen+tagLen with upper bound 255 and lower bound >= 8 for every padding draw (affine bounds with cancellation)", 1)
	a := getMuxAnchors(c, rule)
	if a == nil {
		return
	}
	enc := a.obfuscate
	eh, _ := headerSlice(enc, enc.Params[2])
	if eh == nil {
		c.Undecided(rule, "header slice", "-", "not found")
		return
	}
	n := 0
	allInstrs(enc, func(i ssa.Instruction) {
		st, ok := i.(*ssa.Store)
		if !ok {
			return
		}
		ia, ok := st.Addr.(*ssa.IndexAddr)
		if !ok || ia.X != ssa.Value(eh) {
			return
		}
		if k, isK := intConst(ia.Index); !isK || k != 13 {
			return
		}
		n++
		conv, ok := st.Val.(*ssa.Convert)
		if !ok {
			c.Bad(rule, "value stored at header[13]", c.at(i), "not a conversion of an int expression: "+Expr(st.Val))
			return
		}
		b := &Bounds{}
		hi, hf, okH := b.UpperConst(conv.X)
		lo, lf, okL := b.LowerConst(conv.X)
		c.Check(okH && okL && hi <= 255 && lo >= 8, rule, "header[13] = byte(padLen+tagLen) cannot wrap", c.at(i), fmt.Sprintf("%s ∈ [%d, %d] (upper form %s, lower form %s)", Expr(conv.X), lo, hi, hf, lf),
			fmt.Sprintf("cannot prove 8 <= %s <= 255 (upper %d via %s ok=%v; lower %d via %s ok=%v): for some padding draw the length byte wraps and the peer cuts the payload at the wrong place", Expr(conv.X), hi, hf, okH, lo, lf, okL))
	})
	if n == 0 {
		c.Undecided(rule, "store to header[13]", c.atFn(enc), "not found")
	}
}

func c04R4(c *Ctx, rule string) {
	c.Rule(rule, "size limit: encoded length <= len(payload) + 14 + 255; the encoder's buffer guard dominates all writes; every call site's payload is at most maxStreamUnitWrite (= limit − 269)", 6)
	a := getMuxAnchors(c, rule)
	if a == nil {
		return
	}
	p := c.P
	enc := a.obfuscate
	// usefulLen: the value returned on success
	var useful ssa.Value
	for _, r := range returnsOf(enc) {
		if errIsNilAt(resultValue(r, 1), r) != "nonnil" {
			useful = resultValue(r, 0)
		}
	}
	if useful == nil {
		c.Undecided(rule, "encoded length (success result of the encoder)", c.atFn(enc), "not found")
		return
	}
	b := &Bounds{}
	up, ok := b.Upper(useful)
	// subtract len(f.Payload)
	var plen ssa.Value
	for s := range up.Terms {
		if call, isC := s.(*ssa.Call); isC && calleeName(&call.Call) == "builtin.len" {
			if fv, _ := loadedField(call.Call.Args[0]); fv == a.payload {
				plen = s
			}
		}
	}
	over := int64(-1)
	okOver := false
	if ok && plen != nil && up.Terms[plen] == 1 {
		rest := up.add(affSym(plen), -1)
		over, okOver = evalConst(rest, true)
	}
	hl, _ := p.Const("internal/multiplex", "frameHeaderLength")
	ext, _ := p.Const("internal/multiplex", "maxExtraLen")
	c.Check(okOver && over <= hl+ext, rule, "encoded length <= len(payload) + header + maxExtraLen", c.atFn(enc), fmt.Sprintf("usefulLen <= len(f.Payload) + %d (form %s)", over, up.String()),
		fmt.Sprintf("cannot prove usefulLen <= len(payload)+%d: upper form %s gives overhead %d (ok=%v) — a maximal payload can exceed the on-wire limit", hl+ext, up.String(), over, okOver))
	// buffer guard dominates every write into buf beyond the header
	guard := false
	var guardIf *ssa.If
	allInstrs(enc, func(i ssa.Instruction) {
		if iff, isIf := i.(*ssa.If); isIf {
			at := NormCond(iff.Cond, true)
			if at.Kind == "cmp" && at.Op == token.LSS {
				if lc, isC := stripConv(at.X).(*ssa.Call); isC && calleeName(&lc.Call) == "builtin.len" && lc.Call.Args[0] == ssa.Value(enc.Params[2]) {
					guardIf = iff
				}
			}
		}
	})
	if guardIf != nil {
		guard = true
		allInstrs(enc, func(i ssa.Instruction) {
			switch i.(type) {
			case *ssa.Store, *ssa.Slice:
				if sl, isSl := i.(*ssa.Slice); isSl && sl.X != ssa.Value(enc.Params[2]) {
					return
				}
				if st, isSt := i.(*ssa.Store); isSt {
					if _, isIA := st.Addr.(*ssa.IndexAddr); !isIA {
						return
					}
				}
				if !instrDominates(guardIf, i) {
					guard = false
				}
			}
		})
	}
	c.Check(guard, rule, "buffer-size guard dominates all slicing of and stores into buf", c.atFn(enc), "len(buf) < usefulLen ⇒ error, before any write", "the encoder writes into buf before (or without) checking that it is large enough")
	// the per-frame maximum is the on-wire limit minus exactly that overhead
	checkMaxUnit(c, rule)
	// call sites: payload length <= maxStreamUnitWrite
	maxF := p.Field("internal/multiplex", "Session", "maxStreamUnitWrite")
	isMax := func(v ssa.Value) bool { fv, _ := loadedField(stripConv(v)); return fv == maxF }
	for _, f := range p.FuncsOfPkg("internal/multiplex") {
		if strings.HasSuffix(p.Pos(f.Pos()), "_test.go") || strings.HasSuffix(p.Pos(f.Pos()), "_fuzz.go") {
			continue
		}
		allInstrs(f, func(i ssa.Instruction) {
			// payload assignments: stores to <frame>.Payload
			var val ssa.Value
			if st, isSt := i.(*ssa.Store); isSt {
				if fv, _ := fieldVar(st.Addr); fv == a.payload && f != a.deobfuscate && f.Name() != "Write" || (isSt && func() bool {
					fv, _ := fieldVar(st.Addr)
					return fv == a.payload && f.Name() == "Write" && strings.Contains(f.String(), "Stream")
				}()) {
					val = st.Val
				}
			}
			if val == nil {
				return
			}
			if _, isMk := val.(*ssa.MakeSlice); isMk {
				return // private copy in the reorder buffer
			}
			construct := "payload handed to the encoder in " + shortFn(f) + ": " + Expr(val)
			okLen, why := payloadBounded(val, i, isMax)
			c.Check(okLen, rule, construct, c.at(i), why, "cannot bound the payload by maxStreamUnitWrite: "+why)
		})
	}
}

// payloadBounded: is len(val) <= maxStreamUnitWrite (or a small constant) at instruction at?
func payloadBounded(val ssa.Value, at ssa.Instruction, isMax func(ssa.Value) bool, edge ...Atom) (bool, string) {
	// φ of several slices
	if ph, ok := val.(*ssa.Phi); ok {
		all := true
		var ws []string
		for k, e := range ph.Edges {
			pred := ph.Block().Preds[k]
			// the condition of the edge pred→φ-block holds for this operand too
			var ea []Atom
			if iff, isIf := pred.Instrs[len(pred.Instrs)-1].(*ssa.If); isIf && pred.Succs[0] != pred.Succs[1] {
				ea = append(ea, NormCond(iff.Cond, pred.Succs[0] == ph.Block()))
			}
			o, w := payloadBounded(e, pred.Instrs[len(pred.Instrs)-1], isMax, ea...)
			ws = append(ws, w)
			if !o {
				all = false
			}
		}
		return all, strings.Join(ws, " | ")
	}
	sl, ok := val.(*ssa.Slice)
	if !ok {
		return false, "not a slice expression"
	}
	// general form: len(val) as a symbolic affine expression is maxStreamUnitWrite itself, or is bounded by it through
	// a guard in force here — however the slice and the comparison are spelled
	if la, okL := sliceLenAff(sl); okL {
		if len(la.Terms) == 1 && la.C == 0 {
			for s, k := range la.Terms {
				if k == 1 && isMax(s) {
					return true, "length = maxStreamUnitWrite"
				}
			}
		}
		for _, a := range append(AtomsAt(at), edge...) {
			if a.Kind == "cmp" && (a.Op == token.LEQ || a.Op == token.LSS) && isMax(a.Y) && affSame(symAff(a.X, 0), la) {
				return true, "len(payload) " + a.Op.String() + " maxStreamUnitWrite by the guard " + a.String()
			}
			if a.Kind == "cmp" && (a.Op == token.GEQ || a.Op == token.GTR) && isMax(a.X) && affSame(symAff(a.Y, 0), la) {
				return true, "maxStreamUnitWrite " + a.Op.String() + " len(payload) by the guard " + a.String()
			}
		}
	}
	// w[:n] with n the count of a read into w itself: at most len(w) (io.Reader contract) — bounded if w is
	if sl.Low == nil && sl.High != nil {
		if ex, isEx := stripConv(sl.High).(*ssa.Extract); isEx && ex.Index == 0 {
			if call, isC := ex.Tuple.(*ssa.Call); isC && strings.HasSuffix(calleeName(&call.Call), ").Read") && len(call.Call.Args) > 0 && call.Call.Args[len(call.Call.Args)-1] == sl.X {
				ok2, w := payloadBounded(sl.X, call, isMax)
				return ok2, "length = count of a read into this very window, whose " + w
			}
		}
	}
	// in[n:] under guard len(in)-n <= max
	if sl.High == nil {
		for _, a := range AtomsAt(at) {
			if a.Kind == "cmp" && a.Op == token.LEQ && isMax(a.Y) {
				if bo, isB := stripConv(a.X).(*ssa.BinOp); isB && bo.Op == token.SUB {
					if lc, isC := bo.X.(*ssa.Call); isC && calleeName(&lc.Call) == "builtin.len" && lc.Call.Args[0] == sl.X && (sl.Low == nil || sameValueOrLoad(bo.Y, sl.Low)) {
						return true, "in[n:] under len(in)-n <= maxStreamUnitWrite"
					}
				}
			}
		}
		if os.Getenv("CLOAKCHECK_DEBUG") != "" {
			if la, okL := sliceLenAff(sl); okL {
				fmt.Println("DEBUG payloadBounded len form", la.String())
			}
			for _, a := range append(AtomsAt(at), edge...) {
				fmt.Println("DEBUG payloadBounded atom", a.String(), a.Kind, a.Op)
				if a.Kind == "cmp" {
					fmt.Println("   X:", symAff(a.X, 0).String(), " Y:", symAff(a.Y, 0).String())
				}
			}
		}
		return false, "open-ended slice without a dominating length guard"
	}
	// X[lo : lo+K]
	lo := sl.Low
	if bo, isB := sl.High.(*ssa.BinOp); isB && bo.Op == token.ADD {
		var other ssa.Value
		switch {
		case lo != nil && sameValueOrLoad(bo.X, lo):
			other = bo.Y
		case lo != nil && sameValueOrLoad(bo.Y, lo):
			other = bo.X
		case lo != nil && sameConst(bo.X, lo):
			other = bo.Y
		case lo != nil && sameConst(bo.Y, lo):
			other = bo.X
		}
		if other != nil {
			if isMax(other) {
				return true, "length = maxStreamUnitWrite"
			}
			// read count of a Read into a slice of length max
			if ex, isEx := other.(*ssa.Extract); isEx && ex.Index == 0 {
				if call, isC := ex.Tuple.(*ssa.Call); isC && strings.HasSuffix(calleeName(&call.Call), ").Read") {
					ok2, w := payloadBounded(call.Call.Args[len(call.Call.Args)-1], call, isMax)
					return ok2, "length = count of a read into a buffer whose " + w
				}
			}
			b := &Bounds{}
			if hi, form, okH := b.UpperConst(other); okH && hi <= 256 {
				return true, fmt.Sprintf("length <= %d (%s): small constant, <= maxStreamUnitWrite for every limit >= %d (assumption for custom limits)", hi, form, hi+269)
			}
		}
	}
	return false, "slice bounds " + Expr(val) + " not recognised"
}

func sameConst(a, b ssa.Value) bool {
	x, ok1 := intConst(a)
	y, ok2 := intConst(b)
	return ok1 && ok2 && x == y
}

func c04R5(c *Ctx, rule string) {
	c.Rule(rule, "placement modes: a call site passing offset 14 hands a payload that already lies at buf[14:]; the encoder copies exactly when the offset differs from the header length", 3)
	a := getMuxAnchors(c, rule)
	if a == nil {
		return
	}
	p := c.P
	enc := a.obfuscate
	// copy(payload, f.Payload) control-dependent exactly on payloadOffsetInBuf != 14
	var cp *ssa.Call
	allInstrs(enc, func(i ssa.Instruction) {
		if call, ok := i.(*ssa.Call); ok && calleeName(&call.Call) == "builtin.copy" {
			if fv, _ := loadedField(call.Call.Args[1]); fv == a.payload {
				cp = call
			}
		}
	})
	okCopy := false
	if cp != nil {
		gs := AtomsAt(cp)
		for _, at := range gs {
			if at.Kind == "cmp" && at.Op == token.NEQ {
				if (at.X == ssa.Value(enc.Params[3]) && isK(at.Y, 14)) || (at.Y == ssa.Value(enc.Params[3]) && isK(at.X, 14)) {
					okCopy = true
				}
			}
		}
	}
	c.Check(okCopy, rule, "encoder copies the payload iff it is not already in place", c.atFn(enc), "copy(payload, f.Payload) under payloadOffsetInBuf != frameHeaderLength", "the copy into the output buffer is missing or conditioned on something else: encoding from a separate buffer sends stale bytes")
	// call sites
	type site struct {
		cs  ssa.CallInstruction
		off ssa.Value
		buf ssa.Value
	}
	var walk func(f *ssa.Function, bufIdx, offIdx, depth int)
	seen := map[*ssa.Function]bool{}
	walk = func(f *ssa.Function, bufIdx, offIdx, depth int) {
		if seen[f] || depth > 3 {
			return
		}
		seen[f] = true
		for _, cs := range p.CallersOf(f) {
			g := cs.Parent()
			if !p.InRepo(g) || strings.HasSuffix(p.Pos(cs.Pos()), "_test.go") || strings.HasSuffix(p.Pos(cs.Pos()), "_fuzz.go") || g.Synthetic != "" {
				continue
			}
			args := callArgs(cs.Common())
			if len(args) != len(f.Params) {
				continue
			}
			off, buf := args[offIdx], args[bufIdx]
			// forwarded parameters: recurse
			if op, isP := off.(*ssa.Parameter); isP {
				oi, bi := -1, -1
				for k, q := range g.Params {
					if q == op {
						oi = k
					}
					if ssa.Value(q) == buf {
						bi = k
					}
				}
				if oi >= 0 && bi >= 0 {
					walk(g, bi, oi, depth+1)
					continue
				}
			}
			k, isConst := intConst(off)
			construct := fmt.Sprintf("placement at call in %s (offset %s)", shortFn(g), Expr(off))
			if !isConst {
				c.Bad(rule, construct, c.at(cs), "payload offset is not a constant")
				continue
			}
			if k != 14 {
				c.OK(rule, construct, c.at(cs), "separate-buffer mode: the encoder copies")
				continue
			}
			// in-place mode: the frame payload stored before the call is a slice of the same buffer with low bound 14
			inPlace := false
			allInstrs(g, func(i ssa.Instruction) {
				if st, isSt := i.(*ssa.Store); isSt && instrDominates(i, cs) {
					if fv, _ := fieldVar(st.Addr); fv == a.payload {
						if sl, isSl := st.Val.(*ssa.Slice); isSl && sl.Low != nil {
							if lk, isL := intConst(sl.Low); isL && lk == 14 && sameBuf(sl.X, buf) {
								inPlace = true
							}
						}
						// the same through a named window: w := buf[14:…]; payload = w[:n]
						if off, okO := offsetInBuf(st.Val, buf); okO && off == 14 {
							inPlace = true
						}
					}
				}
			})
			// Session.Close builds its notice frame with Payload: payload (composite literal)
			if !inPlace {
				allInstrs(g, func(i ssa.Instruction) {
					if sl, isSl := i.(*ssa.Slice); isSl && sl.Low != nil && instrDominates(i, cs) {
						if lk, isL := intConst(sl.Low); isL && lk == 14 && sameBuf(sl.X, buf) {
							for _, r := range *sl.Referrers() {
								if st, isSt := r.(*ssa.Store); isSt {
									if fv, _ := fieldVar(st.Addr); fv == a.payload {
										inPlace = true
									}
								}
							}
						}
					}
				})
			}
			c.Check(inPlace, rule, construct, c.at(cs), "f.Payload = buf[14:…] of the same buffer", "offset 14 is passed but the payload is not a slice of the output buffer at offset 14: the encoder skips the copy and seals whatever bytes are there")
		}
	}
	walk(enc, 2, 3, 0)
}

func isK(v ssa.Value, k int64) bool { x, ok := intConst(v); return ok && x == k }

// offsetInBuf: v is buf[k1:…][k2:…]… (constant lower bounds, any nesting): the offset of v[0] in buf.
func offsetInBuf(v, buf ssa.Value) (int64, bool) {
	off := int64(0)
	for d := 0; d < 6; d++ {
		sl, ok := v.(*ssa.Slice)
		if !ok {
			return 0, false
		}
		if sl.Low != nil {
			k, isK := intConst(sl.Low)
			if !isK {
				return 0, false
			}
			off += k
		}
		if sameBuf(sl.X, buf) {
			return off, true
		}
		v = sl.X
	}
	return 0, false
}

// sameBuf: two expressions denote the same byte buffer (same value, or loads through the same pointer)
func sameBuf(a, b ssa.Value) bool {
	if a == b {
		return true
	}
	la, ok1 := a.(*ssa.UnOp)
	lb, ok2 := b.(*ssa.UnOp)
	if ok1 && ok2 && la.Op == token.MUL && lb.Op == token.MUL {
		return la.X == lb.X
	}
	return false
}

func c04R6(c *Ctx, rule string) {
	c.Rule(rule, "empty payload refused first: the error return for len(f.Payload)==0 precedes every other effect of the encoder", 1)
	a := getMuxAnchors(c, rule)
	if a == nil {
		return
	}
	enc := a.obfuscate
	b0 := enc.Blocks[0]
	iff, ok := b0.Instrs[len(b0.Instrs)-1].(*ssa.If)
	good := false
	if ok {
		at := NormCond(iff.Cond, true)
		if at.Kind == "cmp" && at.Op == token.EQL {
			for _, s := range []ssa.Value{at.X, at.Y} {
				if lc, isC := s.(*ssa.Call); isC && calleeName(&lc.Call) == "builtin.len" {
					if fv, _ := loadedField(lc.Call.Args[0]); fv == a.payload && isZero(otherSide(at, s)) {
						// true edge returns an error
						tb := b0.Succs[0]
						if r, isR := tb.Instrs[len(tb.Instrs)-1].(*ssa.Return); isR && errIsNilAt(resultValue(r, 1), r) == "nonnil" {
							good = true
						}
					}
				}
			}
		}
		// no stores / calls with effects in the entry block before the test
		for _, in := range b0.Instrs {
			switch in.(type) {
			case *ssa.Store:
				good = false
			}
		}
	}
	c.Check(good, rule, "encoder rejects an empty payload before doing anything", c.atFn(enc), "first test: len(f.Payload)==0 ⇒ error", "an empty payload is not rejected first (the decoder cannot distinguish it from padding)")
	_ = types.Typ
}
