package main

import (
	"go/token"

	"golang.org/x/tools/go/ssa"
)

// C12.R11 — every inactivity-timer callback re-checks the count.  "A multiplexed session closes itself on its
// inactivity timer only while it has no open stream": the count seen when the timer was *armed* says nothing about
// the moment it *fires* (a stream may have been opened in between).  For every time.AfterFunc in the multiplexer whose
// callback can reach Session.Close / passiveClose / closeSession, every call path from the callback to the close is
// guarded, somewhere along it, by a test streamCount() == 0 made inside the callback (C12.R6 only looked at the close
// calls written in checkTimeout itself and at *whether* closeStream arms a timer, not at *what* it arms — seed C12-h).
func c12R11(c *Ctx, rule string) {
	c.Rule(rule, "timer callbacks: every path from a time.AfterFunc callback to a session close passes a streamCount()==0 test made after the timer fired", 2)
	a := getC12(c, rule)
	if a == nil {
		return
	}
	p := c.P
	ev := a.counterEvents(p)
	targets := map[*ssa.Function]bool{}
	for _, n := range []string{"Session.Close", "Session.passiveClose", "Session.closeSession"} {
		if f := p.Func("internal/multiplex", n); f != nil {
			targets[f] = true
		}
	}
	if len(targets) == 0 {
		c.Undecided(rule, "anchors Session.Close/passiveClose/closeSession", "-", "not found")
		return
	}
	memo := map[*ssa.Function]int{} // 0 unknown, 1 in progress/no, 2 yes
	var reaches func(f *ssa.Function) bool
	reaches = func(f *ssa.Function) bool {
		if targets[f] {
			return true
		}
		// bound-method wrappers (sesh.checkTimeout as a func value) are synthetic: look through them
		if f == nil || (!p.InRepo(f) && f.Synthetic == "") || memo[f] == 1 {
			return false
		}
		if memo[f] == 2 {
			return true
		}
		memo[f] = 1
		found := false
		allInstrs(f, func(i ssa.Instruction) {
			if ci, ok := i.(ssa.CallInstruction); ok && !found {
				if g := ci.Common().StaticCallee(); g != nil && reaches(g) {
					found = true
				}
			}
		})
		if found {
			memo[f] = 2
		}
		return found
	}
	zeroGuard := func(i ssa.Instruction) bool {
		for _, at := range AtomsAt(i) {
			if at.Kind == "cmp" && at.Op == token.EQL {
				for _, s := range []ssa.Value{at.X, at.Y} {
					if ev.isCountRead(s) {
						if k, isK := intConst(otherSide(at, s)); isK && k == 0 {
							return true
						}
					}
				}
			}
		}
		return false
	}
	var unguarded func(f *ssa.Function, depth int) []string
	unguarded = func(f *ssa.Function, depth int) []string {
		var out []string
		allInstrs(f, func(i ssa.Instruction) {
			ci, ok := i.(ssa.CallInstruction)
			if !ok {
				return
			}
			g := ci.Common().StaticCallee()
			if g == nil || !reaches(g) || zeroGuard(i) {
				return
			}
			if targets[g] || depth >= 5 {
				out = append(out, c.at(i))
				return
			}
			out = append(out, unguarded(g, depth+1)...)
		})
		return out
	}
	n := 0
	for _, f := range p.FuncsOfPkg("internal/multiplex") {
		for _, call := range callsIn(f, "time.AfterFunc") {
			args := call.Common().Args
			if len(args) != 2 {
				continue
			}
			var cb *ssa.Function
			switch x := stripConv(args[1]).(type) {
			case *ssa.MakeClosure:
				cb, _ = x.Fn.(*ssa.Function)
			case *ssa.Function:
				cb = x
			}
			construct := "callback of the timer armed in " + shortFn(p.ownerAnchor(f))
			if cb == nil {
				c.Undecided(rule, construct, c.at(call), "the callback "+Expr(args[1])+" is not a function literal or method value")
				continue
			}
			if !reaches(cb) {
				continue
			}
			n++
			bad := unguarded(cb, 0)
			detail := ""
			if len(bad) > 0 {
				detail = "the callback reaches a session close at " + bad[0] + " without testing streamCount()==0 after the timer fired: a stream opened between arming and firing is killed with its session (count seen at arming time is stale)"
			}
			c.Check(len(bad) == 0, rule, construct, c.at(call), "every close reachable from the callback is behind streamCount()==0", detail)
		}
	}
	if n < 2 {
		c.Undecided(rule, "inactivity timers", "-", "fewer than the two confirmed timers (MakeSession, closeStream) whose callback can close the session were found")
	}
}
