#!/bin/bash
# Entry point for every registered command.  Everything is static: nothing from /repo is executed.
set -u
VERIF="$(cd "$(dirname "${BASH_SOURCE[0]}")" && pwd)"
REPO="${CLOAK_REPO:-/repo}"
TC=/root/go/pkg/mod/golang.org/toolchain@v0.0.1-go1.24.2.linux-amd64
export PATH="$TC/bin:$PATH"
export GOTOOLCHAIN=local GOFLAGS=-mod=mod GOPROXY=off GOSUMDB=off CGO_ENABLED=0
unset GOWORK
BIN="$VERIF/bin/cloakcheck"

build() {
  (cd "$VERIF/checker" && go build -o "$BIN" . ) || { echo "setup: building the checker failed" >&2; return 1; }
}

case "${1:-}" in
  setup)
    build || exit 1
    (cd "$VERIF/checker" && go vet . ) || exit 1
    "$BIN" -selftest -verif "$VERIF" || exit 1
    ;;
  check)
    id="${2:?property id}"; tier="${3:-quick}"
    [ -x "$BIN" ] || build || exit 1
    # rebuild when sources are newer than the binary (cheap; keeps bin current during development)
    if [ -n "$(find "$VERIF/checker" -name '*.go' -newer "$BIN" -print -quit 2>/dev/null)" ]; then build || exit 1; fi
    exec "$BIN" -prop "$id" -tier "$tier" -repo "$REPO" -verif "$VERIF"
    ;;
  explain)
    [ -x "$BIN" ] || build || exit 1
    exec "$BIN" -explain "${2:?report path}" -repo "$REPO" -verif "$VERIF"
    ;;
  all)
    tier="${2:-quick}"
    [ -x "$BIN" ] || build || exit 1
    if [ -n "$(find "$VERIF/checker" -name '*.go' -newer "$BIN" -print -quit 2>/dev/null)" ]; then build || exit 1; fi
    exec "$BIN" -prop all -tier "$tier" -repo "$REPO" -verif "$VERIF"
    ;;
  baseline)
    cd "$REPO" && exec go test -vet=off -count=1 -timeout 25m ./...
    ;;
  *)
    echo "usage: run.sh setup | check <id> <quick|thorough> | explain <report.json> | all [tier] | baseline" >&2
    exit 2
    ;;
esac
